#!/venv/bin/python
"""srcgen.py — fail-closed translator from a subset of Python (the `ast` of /repo/ghedesigner)
to Gallina over Q.  Output: coq/theories/gen/Src.v, regenerated on every run.

Subset (anything else raises Unsupported and the caller reports a broken obligation):
  module constants; enums; straight-line code, if/elif/else, for over range/enumerate/list
  (with break/continue), list append/extend/item assignment, np.append, return; arithmetic,
  comparisons, boolean operators, conditional expressions, list literals/comprehensions,
  indexing and slicing, calls to a fixed table of builtins and to other translated functions.
Every number is a rational (ints are rationals with denominator 1); float literals are taken at
their decimal value.  `self.a.b` reads become parameters `self_a_b`.
"""
import ast, hashlib, json, os, re, sys
from fractions import Fraction

REPO = os.environ.get("VERIF_REPO", "/repo")
PKG = os.path.join(REPO, "ghedesigner")
HERE = os.path.dirname(os.path.abspath(__file__))
OUT = os.path.join(os.environ.get("VERIF_COQ") or os.path.join(os.path.dirname(HERE), "coq"), "theories", "gen", "Src.v")


class Unsupported(Exception):
    pass


COQ_RESERVED = {"at", "in", "end", "fun", "forall", "return", "Type", "as", "if", "then", "else", "let", "match",
                "with", "fix", "cofix", "struct", "where", "using", "Set", "Prop", "exists", "exists2", "for",
                "IF", "mod", "by", "length", "max", "min", "sum", "nth", "map", "seq", "O", "S", "Q", "Z", "N",
                "list", "bool", "true", "false", "nat", "fst", "snd", "app", "rev", "id", "tt", "unit", "pair",
                "dflt", "Ok", "Err", "bind", "result", "d", "n"} - {"d", "n"}


def cname(s):
    s = s.replace(".", "_")
    if s == "_":
        return "_u"
    if s in COQ_RESERVED:
        return s + "_"
    return s


def qlit(v):
    if isinstance(v, bool):
        return "true" if v else "false"
    if isinstance(v, int):
        return f"({v} # 1)" if v >= 0 else f"(-{-v} # 1)"
    if isinstance(v, float):
        fr = Fraction(repr(v))
        n, d = fr.numerator, fr.denominator
        return f"({n} # {d})" if n >= 0 else f"(-{-n} # {d})"
    raise Unsupported(f"literal {v!r}")


def attr_chain(node):
    """self.a.b -> ['self','a','b'] or None"""
    parts = []
    while isinstance(node, ast.Attribute):
        parts.append(node.attr)
        node = node.value
    if isinstance(node, ast.Name):
        parts.append(node.id)
        return list(reversed(parts))
    return None


def assigned_names(stmts):
    """names (incl. self_attr pseudo-variables) assigned anywhere in stmts"""
    out = []

    def tgt(t):
        if isinstance(t, ast.Name):
            out.append(cname(t.id))
        elif isinstance(t, (ast.Tuple, ast.List)):
            for e in t.elts:
                tgt(e)
        elif isinstance(t, ast.Attribute):
            ch = attr_chain(t)
            if ch:
                out.append(cname("_".join(ch)))
        elif isinstance(t, ast.Subscript):
            tgt(t.value)

    for s in stmts:
        for n in ast.walk(s):
            if isinstance(n, ast.Assign):
                for t in n.targets:
                    tgt(t)
            elif isinstance(n, (ast.AugAssign, ast.AnnAssign)):
                tgt(n.target)
            elif isinstance(n, ast.Expr) and isinstance(n.value, ast.Call) and isinstance(n.value.func, ast.Attribute) \
                    and n.value.func.attr in ("append", "extend"):
                tgt(n.value.func.value)
    seen, res = set(), []
    for x in out:
        if x not in seen:
            seen.add(x)
            res.append(x)
    return res


def target_names(t):
    if isinstance(t, ast.Name):
        return [cname(t.id)]
    if isinstance(t, (ast.Tuple, ast.List)):
        return [x for e in t.elts for x in target_names(e)]
    return []


def has_escape(stmts, raising=()):
    """does the statement list contain return/raise (any depth), a call to a raising function, or break/continue
    (not inside a nested loop)?"""
    def walk(ss, loopdepth):
        for s in ss:
            if isinstance(s, (ast.Return, ast.Raise, ast.While)):
                return True           # a while loop can end in Err OutOfFuel
            if raising and not isinstance(s, (ast.If, ast.For, ast.While)) and contains_raising([s], raising):
                return True
            if isinstance(s, (ast.Break, ast.Continue)) and loopdepth == 0:
                return True
            if isinstance(s, ast.If):
                if walk(s.body, loopdepth) or walk(s.orelse, loopdepth):
                    return True
            if isinstance(s, (ast.For, ast.While)):
                if walk(s.body, loopdepth + 1):
                    return True
        return False
    return walk(stmts, 0)


class FuncTr:
    def __init__(self, gen, fn, coqname, params=None, ptypes=None, returns=None, extra_params=None,
                 raises=False, abstract=None, ignore=None, fuel=None, no_abstract_params=False):
        self.gen = gen
        self.fn = fn
        self.coqname = coqname
        self.ptypes = ptypes or {}
        self.returns = returns
        self.raises = raises
        self.abstract = abstract or {}       # python call name -> coq parameter name (oracle)
        self.ignore = set(ignore or [])      # names that only carry text (field descriptors): dropped
        self.fuel = fuel                     # python expression (text) bounding the iterations of `while` loops
        self.no_abstract_params = no_abstract_params   # abstract functions are Section variables, not parameters
        args = [a.arg for a in fn.args.args if a.arg not in ("self", "cls")]
        self.params = [cname(a) for a in args]
        self.selfattrs = []                  # discovered self.x reads
        self.declared_extra = [cname(p.replace(".", "_")) for p in (extra_params or [])]
        self.vtypes = {}
        for p in self.params + self.declared_extra:
            self.vtypes[p] = self.ptypes.get(p, "Q")
        self.loopstack = []
        self.notes = []

    # ---------- types ----------
    def infer(self, e):
        if isinstance(e, ast.Constant):
            if isinstance(e.value, bool):
                return "bool"
            if isinstance(e.value, (int, float)):
                return "Q"
            if isinstance(e.value, str):
                return "str"
            return "unknown"
        if isinstance(e, ast.Name):
            if e.id in self.gen.const_types:
                return self.gen.const_types[e.id]
            return self.vtypes.get(cname(e.id), "Q")
        if isinstance(e, ast.Attribute):
            ch = attr_chain(e)
            if ch and ch[0] in self.gen.enums and len(ch) == 2:
                return "enum:" + ch[0]
            if ch:
                return self.vtypes.get(cname("_".join(ch)), "Q")
            return "unknown"
        if isinstance(e, (ast.List, ast.ListComp)):
            return "list"
        if isinstance(e, ast.Tuple):
            return "tuple"
        if isinstance(e, ast.BinOp):
            l, r = self.infer(e.left), self.infer(e.right)
            if l.startswith("list") or r.startswith("list"):
                return "list"
            return "Q"
        if isinstance(e, (ast.Compare, ast.BoolOp)):
            return "bool"
        if isinstance(e, ast.UnaryOp):
            return "bool" if isinstance(e.op, ast.Not) else "Q"
        if isinstance(e, ast.IfExp):
            return self.infer(e.body)
        if isinstance(e, ast.Subscript):
            if isinstance(e.slice, ast.Slice):
                return "list"
            t = self.infer(e.value)
            if t.startswith("list "):
                inner = t[5:].strip()
                if inner.startswith("(") and inner.endswith(")"):
                    inner = inner[1:-1]
                return inner
            return "Q"
        if isinstance(e, ast.Call):
            f = e.func
            if isinstance(f, ast.Name):
                if f.id in ("range", "enumerate", "list", "sorted", "zip"):
                    return "list"
                if f.id in self.gen.func_rettypes:
                    return self.gen.func_rettypes[f.id]
            return "Q"
        return "unknown"

    # ---------- expressions ----------
    def expr(self, e):
        if isinstance(e, ast.Constant):
            return qlit(e.value)
        if isinstance(e, ast.Name):
            if e.id in ("True", "False"):
                return e.id.lower()
            if e.id in self.gen.consts:
                return e.id if e.id not in COQ_RESERVED else e.id + "_"
            return cname(e.id)
        if isinstance(e, ast.Attribute):
            ch = attr_chain(e)
            if ch is None:
                raise Unsupported("attribute on expression: " + ast.dump(e))
            if ch[0] in self.gen.enums and len(ch) == 2:
                if ch[1] not in self.gen.enums[ch[0]]:
                    raise Unsupported(f"unknown enum member {ch}")
                return f"{ch[0]}_{ch[1]}"
            if ch[-1] == "size" and len(ch) >= 2:
                return f"(qlen {cname('_'.join(ch[:-1]))})"
            name = cname("_".join(ch))
            if ch[0] == "self" and name not in self.selfattrs and name not in self.vtypes:
                self.selfattrs.append(name)
                self.vtypes[name] = self.ptypes.get(name, "Q")
            elif ch[0] != "self" and name not in self.vtypes:
                # attribute of a parameter object: becomes a parameter too
                if name not in self.selfattrs:
                    self.selfattrs.append(name)
                    self.vtypes[name] = self.ptypes.get(name, "Q")
            return name
        if isinstance(e, ast.UnaryOp):
            if isinstance(e.op, ast.USub):
                if isinstance(e.operand, ast.Constant) and isinstance(e.operand.value, (int, float)):
                    return qlit(-e.operand.value)
                return f"(qneg {self.expr(e.operand)})"
            if isinstance(e.op, ast.UAdd):
                return self.expr(e.operand)
            if isinstance(e.op, ast.Not):
                return f"(negb {self.expr(e.operand)})"
            raise Unsupported("unary op")
        if isinstance(e, ast.BinOp):
            lt, rt = self.infer(e.left), self.infer(e.right)
            a, b = self.expr(e.left), self.expr(e.right)
            if isinstance(e.op, ast.Add):
                if lt.startswith("list") or rt.startswith("list"):
                    return f"({a} ++ {b})"
                return f"(qadd {a} {b})"
            if isinstance(e.op, ast.Sub):
                return f"(qsub {a} {b})"
            if isinstance(e.op, ast.Mult):
                if lt.startswith("list"):
                    if isinstance(e.left, ast.List) and len(e.left.elts) == 1:
                        return f"(repeatQ {self.expr(e.left.elts[0])} {b})"
                    return f"(list_repeat {a} {b})"          # Python list repetition
                return f"(qmul {a} {b})"
            if isinstance(e.op, ast.Div):
                return f"(qdiv {a} {b})"
            if isinstance(e.op, ast.FloorDiv):
                return f"(qfloordiv {a} {b})"
            if isinstance(e.op, ast.Mod):
                return f"(qmod {a} {b})"
            if isinstance(e.op, ast.Pow):
                if isinstance(e.right, ast.Constant) and isinstance(e.right.value, int):
                    return f"(qpow {a} {e.right.value})"
                if isinstance(e.right, ast.Constant) and e.right.value == 2.0:
                    return f"(qpow {a} 2)"
                raise Unsupported("** with non-constant exponent")
            raise Unsupported("binop " + type(e.op).__name__)
        if isinstance(e, ast.BoolOp):
            op = "&&" if isinstance(e.op, ast.And) else "||"
            return "(" + f" {op} ".join(self.expr(v) for v in e.values) + ")"
        if isinstance(e, ast.Compare):
            parts = []
            left = e.left
            for op, right in zip(e.ops, e.comparators):
                parts.append(self.compare(left, op, right))
                left = right
            return parts[0] if len(parts) == 1 else "(" + " && ".join(parts) + ")"
        if isinstance(e, ast.IfExp):
            return f"(if {self.expr(e.test)} then {self.expr(e.body)} else {self.expr(e.orelse)})"
        if isinstance(e, ast.List):
            return "[" + "; ".join(self.expr(x) for x in e.elts) + "]"
        if isinstance(e, ast.Tuple):
            return "(" + ", ".join(self.expr(x) for x in e.elts) + ")"
        if isinstance(e, ast.ListComp):
            if len(e.generators) != 1:
                raise Unsupported("nested comprehension")
            g = e.generators[0]
            it = self.iter_expr(g.iter)
            pat = self.pattern(g.target)
            saved = dict(self.vtypes)
            self.bind_target_types(g.target, g.iter)
            body = self.expr(e.elt)
            conds = [self.expr(c) for c in g.ifs]
            self.vtypes = saved
            if conds:
                it = f"(filter (fun {pat} => {' && '.join(conds)}) {it})"
            return f"(map (fun {pat} => {body}) {it})"
        if isinstance(e, ast.Subscript):
            v = self.expr(e.value)
            if isinstance(e.slice, ast.Slice):
                if e.slice.step is not None:
                    raise Unsupported("slice step")
                lo, hi = e.slice.lower, e.slice.upper
                if lo is None and hi is None:
                    return v
                if lo is None:
                    return f"(slice_to {v} {self.expr(hi)})"
                if hi is None:
                    return f"(slice_from {v} {self.expr(lo)})"
                return f"(sliceD {v} {self.expr(lo)} {self.expr(hi)})"
            vt = self.infer(e.value)
            if "*" in vt and not vt.startswith("list") and isinstance(e.slice, ast.Constant) and e.slice.value in (0, 1):
                return f"({'fst' if e.slice.value == 0 else 'snd'} {v})"
            return f"(nthD {v} {self.expr(e.slice)})"
        if isinstance(e, ast.Call):
            return self.call(e)
        raise Unsupported("expression " + type(e).__name__)

    def compare(self, l, op, r):
        lt, rt = self.infer(l), self.infer(r)
        a, b = self.expr(l), self.expr(r)
        if lt.startswith("enum:") or rt.startswith("enum:"):
            en = (lt if lt.startswith("enum:") else rt)[5:]
            if isinstance(op, (ast.Eq, ast.Is)):
                return f"({en}_eqb {a} {b})"
            if isinstance(op, (ast.NotEq, ast.IsNot)):
                return f"(negb ({en}_eqb {a} {b}))"
            raise Unsupported("enum ordering")
        if lt == "bool" and rt == "bool":
            if isinstance(op, ast.Eq):
                return f"(Bool.eqb {a} {b})"
            if isinstance(op, ast.NotEq):
                return f"(negb (Bool.eqb {a} {b}))"
        tbl = {ast.Lt: "qltb {a} {b}", ast.LtE: "qleb {a} {b}", ast.Gt: "qltb {b} {a}", ast.GtE: "qleb {b} {a}",
               ast.Eq: "qeqb {a} {b}", ast.NotEq: "qneb {a} {b}"}
        for k, v in tbl.items():
            if isinstance(op, k):
                return "(" + v.format(a=a, b=b) + ")"
        raise Unsupported("comparison " + type(op).__name__)

    def call(self, e):
        f = e.func
        args = list(e.args)
        if isinstance(f, ast.Name) and f.id in self.gen.sigs:
            names, defaults = self.gen.sigs[f.id]
            full = list(args)
            kw = {k.arg: k.value for k in e.keywords}
            for nm in names[len(args):]:
                if nm in kw:
                    full.append(kw.pop(nm))
                elif nm in defaults:
                    full.append(defaults[nm])
                else:
                    raise Unsupported(f"call to {f.id}: missing argument {nm}")
            if kw:
                raise Unsupported(f"call to {f.id}: unknown keywords {sorted(kw)}")
            args = full
        elif e.keywords:
            raise Unsupported("keyword arguments in call")
        if isinstance(f, ast.Name):
            n = f.id
            if n in self.abstract:
                return "(" + self.abstract[n] + "".join(" " + self.expr(a) for a in args) + ")"
            if n == "interp1d" and len(args) == 2:
                return f"({self.expr(args[0])}, {self.expr(args[1])})"      # the interpolant is represented by its knots
            one = {"floor": "qfloor", "ceil": "qceil", "abs": "qabs", "int": "qtrunc", "float": "", "len": "qlen",
                   "sum": "qsum", "list": ""}
            if n in one and len(args) == 1:
                return f"({one[n]} {self.expr(args[0])})" if one[n] else self.expr(args[0])
            if n in ("max", "min"):
                q = "q" + n
                if len(args) == 1:
                    return f"({q}l {self.expr(args[0])})"
                out = self.expr(args[0])
                for a in args[1:]:
                    out = f"({q} {out} {self.expr(a)})"
                return out
            if n == "range":
                return self.iter_expr(e)
            if n in self.gen.funcs:
                return "(" + self.gen.funcs[n] + "".join(" " + self.expr(a) for a in args) + ")"
            raise Unsupported(f"call to {n}")
        if isinstance(f, ast.Attribute):
            ch = attr_chain(f)
            if ch and ch[0] in ("np", "numpy") and ch[1:] == ["append"] and len(args) == 2:
                return f"({self.expr(args[0])} ++ [{self.expr(args[1])}])"
            if f.attr == "index" and len(args) == 1:
                return f"(qindex {self.expr(f.value)} {self.expr(args[0])})"
            if ch and ch[0] == "self" and len(ch) == 2 and ch[1] in self.gen.funcs:
                return "(" + self.gen.funcs[ch[1]] + "".join(" " + self.expr(a) for a in args) + ")"
            if ch and ".".join(ch) in self.abstract:
                return "(" + self.abstract[".".join(ch)] + "".join(" " + self.expr(a) for a in args) + ")"
            raise Unsupported("method call " + ast.unparse(f))
        raise Unsupported("call")

    def iter_expr(self, it):
        if isinstance(it, ast.Call) and isinstance(it.func, ast.Name):
            if it.func.id == "range":
                a = it.args
                if len(a) == 1:
                    return f"(qrange (0 # 1) {self.expr(a[0])})"
                if len(a) == 2:
                    return f"(qrange {self.expr(a[0])} {self.expr(a[1])})"
                raise Unsupported("range with step")
            if it.func.id == "enumerate" and len(it.args) == 1:
                return f"(qenumerate {self.expr(it.args[0])})"
            if it.func.id == "zip" and len(it.args) == 2:
                return f"(combine {self.expr(it.args[0])} {self.expr(it.args[1])})"
            if it.func.id == "zip" and len(it.args) == 3:
                # Python yields flat triples; Coq's '(x, y, z) pattern is ((x, y), z): same truncation to the shortest list
                return f"(combine (combine {self.expr(it.args[0])} {self.expr(it.args[1])}) {self.expr(it.args[2])})"
        return self.expr(it)

    def pattern(self, t):
        if isinstance(t, ast.Name):
            return cname(t.id)
        if isinstance(t, (ast.Tuple, ast.List)):
            return "'(" + ", ".join(self.pattern(x).lstrip("'") for x in t.elts) + ")"
        raise Unsupported("loop target")

    def bind_target_types(self, t, it):
        if isinstance(t, ast.Name):
            ty = self.infer(it)
            inner = "Q"
            if ty.startswith("list "):
                inner = ty[5:].strip()
                if inner.startswith("(") and inner.endswith(")"):
                    inner = inner[1:-1]
            self.vtypes[cname(t.id)] = inner
        elif isinstance(t, (ast.Tuple, ast.List)):
            for x in t.elts:
                if isinstance(x, ast.Name):
                    self.vtypes[cname(x.id)] = "Q"

    # ---------- statements ----------
    def tuple_of(self, names):
        if not names:
            return "tt"
        if len(names) == 1:
            return names[0]
        return "(" + ", ".join(names) + ")"

    def pat_of(self, names):
        if not names:
            return "_"
        if len(names) == 1:
            return names[0]
        return "'(" + ", ".join(names) + ")"

    def target_name(self, t):
        if isinstance(t, ast.Name):
            return cname(t.id)
        if isinstance(t, ast.Attribute):
            ch = attr_chain(t)
            if ch:
                return cname("_".join(ch))
        raise Unsupported("assignment target " + type(t).__name__)

    def note_defined(self, name, valexpr=None):
        if valexpr is not None:
            self.vtypes[name] = self.infer(valexpr)
        elif name not in self.vtypes:
            self.vtypes[name] = "Q"

    def block(self, stmts, final, defined):
        """translate statement list; `final` is the Coq text produced on fall-through;
        `defined` is the set of names surely bound here (mutated as we go)"""
        if not stmts:
            return final() if callable(final) else final
        s, rest = stmts[0], stmts[1:]
        ind = "\n"
        if isinstance(s, ast.Expr):
            v = s.value
            if isinstance(v, ast.Constant) and isinstance(v.value, str):
                return self.block(rest, final, defined)
            if isinstance(v, ast.Call):
                ch = attr_chain(v.func) if isinstance(v.func, ast.Attribute) else None
                if ch and ch[0] == "warnings":
                    return self.block(rest, final, defined)
                if isinstance(v.func, ast.Name) and v.func.id == "print":
                    return self.block(rest, final, defined)
                if isinstance(v.func, ast.Attribute) and v.func.attr in ("append", "extend") and \
                        isinstance(v.func.value, ast.Name) and v.func.value.id in self.ignore:
                    return self.block(rest, final, defined)
                if isinstance(v.func, ast.Attribute) and v.func.attr in ("append", "extend") and len(v.args) == 1:
                    tgt = self.target_name(v.func.value)
                    cur = self.expr(v.func.value)
                    if v.func.attr == "append":
                        rhs = f"({cur} ++ [{self.expr(v.args[0])}])"
                    else:
                        rhs = f"({cur} ++ {self.expr(v.args[0])})"
                    if not self.vtypes.get(tgt, "").startswith("list"):
                        self.vtypes[tgt] = "list"
                    defined.add(tgt)
                    return f"let {tgt} := {rhs} in{ind}{self.block(rest, final, defined)}"
            raise Unsupported("expression statement " + ast.unparse(s)[:60])
        if isinstance(s, ast.Pass):
            return self.block(rest, final, defined)
        if isinstance(s, (ast.Assign, ast.AnnAssign)):
            targets = s.targets if isinstance(s, ast.Assign) else [s.target]
            if len(targets) != 1:
                raise Unsupported("chained assignment")
            t = targets[0]
            if isinstance(t, ast.Subscript):
                base = self.target_name(t.value)
                if isinstance(t.slice, ast.Slice):
                    raise Unsupported("slice assignment")
                rhs = f"(set_nthD {self.expr(t.value)} {self.expr(t.slice)} {self.expr(s.value)})"
                return f"let {base} := {rhs} in{ind}{self.block(rest, final, defined)}"
            if isinstance(t, ast.Name) and t.id in self.ignore:
                return self.block(rest, final, defined)
            if isinstance(t, (ast.Tuple, ast.List)) and any(isinstance(x, ast.Name) and x.id in self.ignore for x in t.elts):
                keep = [x for x in t.elts if not (isinstance(x, ast.Name) and x.id in self.ignore)]
                if len(keep) != 1:
                    raise Unsupported("tuple assignment with ignored names")
                s2 = ast.Assign(targets=[keep[0]], value=s.value)
                return self.block([s2] + rest, final, defined)
            if isinstance(s.value, ast.Call) and isinstance(s.value.func, ast.Name) and s.value.func.id in self.gen.raising:
                if not self.raises:
                    raise Unsupported("call to a raising function from a non-raising one")
                name = self.target_name(t)
                rhs = self.expr(s.value)
                self.note_defined(name, s.value)
                defined.add(name)
                if self.loopstack:
                    st = self.loopstack[-1]
                    if not st.get("err"):
                        raise Unsupported("raising call inside a loop without error state")
                    bad = self.tuple_of((["true"] if st["brk"] else []) + ["(Some e_)"] + st["state"])
                    return f"match {rhs} with Err e_ => {bad} | Ok {name} =>{ind}{self.block(rest, final, defined)}{ind}end"
                return f"match {rhs} with Err e_ => Err e_ | Ok {name} =>{ind}{self.block(rest, final, defined)}{ind}end"
            if isinstance(t, (ast.Tuple, ast.List)):
                names = [self.target_name(x) for x in t.elts]
                rhs = self.expr(s.value)
                for nm in names:
                    self.note_defined(nm)
                    defined.add(nm)
                return f"let '({', '.join(names)}) := {rhs} in{ind}{self.block(rest, final, defined)}"
            if self.raises and isinstance(s.value, ast.Subscript) and not isinstance(s.value.slice, ast.Slice) \
                    and isinstance(s.value.value, ast.Name) and self.infer(s.value.value).startswith("list") and isinstance(t, ast.Name):
                # `v = lst[i]` in a function that can raise: Python's IndexError is part of the behaviour
                name = self.target_name(t)
                lst, idx = self.expr(s.value.value), self.expr(s.value.slice)
                self.note_defined(name, s.value)
                defined.add(name)
                if self.loopstack:
                    st = self.loopstack[-1]
                    if not st.get("err"):
                        raise Unsupported("indexing that may raise inside a loop without error state")
                    bad = self.tuple_of((["true"] if st["brk"] else []) + ["(Some IndexError)"] + st["state"])
                else:
                    bad = "Err IndexError"
                return f"(if idx_ok {lst} {idx} then{ind}let {name} := (nthD {lst} {idx}) in{ind}{self.block(rest, final, defined)}{ind}else {bad})"
            name = self.target_name(t)
            if isinstance(s.value, ast.Constant) and isinstance(s.value.value, str):
                self.vtypes[name] = "str"          # message strings: only ever passed to warnings.warn / print
                return self.block(rest, final, defined)
            rhs = self.expr(s.value)
            self.note_defined(name, s.value)
            defined.add(name)
            return f"let {name} := {rhs} in{ind}{self.block(rest, final, defined)}"
        if isinstance(s, ast.AugAssign):
            name = self.target_name(s.target)
            fake = ast.BinOp(left=s.target, op=s.op, right=s.value)
            rhs = self.expr(fake)
            return f"let {name} := {rhs} in{ind}{self.block(rest, final, defined)}"
        if isinstance(s, ast.Return):
            if self.loopstack:
                raise Unsupported("return inside loop")
            if s.value is None:
                v = self.final_return()
            elif isinstance(s.value, ast.Tuple) and any(isinstance(x, ast.Name) and x.id in self.ignore for x in s.value.elts):
                keep = [x for x in s.value.elts if not (isinstance(x, ast.Name) and x.id in self.ignore)]
                v = self.expr(keep[0]) if len(keep) == 1 else self.expr(ast.Tuple(elts=keep, ctx=ast.Load()))
            else:
                v = self.expr(s.value)
            return f"(Ok {v})" if self.raises else v
        if isinstance(s, ast.Raise):
            if not self.raises:
                raise Unsupported("raise in a function not declared raising")
            exc = s.exc
            nm = exc.func.id if isinstance(exc, ast.Call) and isinstance(exc.func, ast.Name) else \
                (exc.id if isinstance(exc, ast.Name) else None)
            if nm not in ("ValueError", "IndexError", "ZeroDivisionError", "TypeError"):
                raise Unsupported(f"raise {nm}")
            if self.loopstack:
                st = self.loopstack[-1]
                if not st.get("err"):
                    raise Unsupported("raise inside a loop without error state")
                return self.tuple_of((["true"] if st["brk"] else []) + [f"(Some {nm})"] + st["state"])
            return f"(Err {nm})"
        if isinstance(s, ast.Break):
            if not self.loopstack:
                raise Unsupported("break outside loop")
            st = self.loopstack[-1]
            return self.tuple_of(["true"] + (["err_"] if st.get("err") else []) + st["state"])
        if isinstance(s, ast.Continue):
            if not self.loopstack:
                raise Unsupported("continue outside loop")
            st = self.loopstack[-1]
            return self.tuple_of((["false"] if st["brk"] else []) + (["err_"] if st.get("err") else []) + st["state"])
        if isinstance(s, ast.If):
            c = self.expr(s.test)
            if has_escape([s], self.gen.raising if self.raises else ()):
                d1, d2 = set(defined), set(defined)
                saved = dict(self.vtypes)
                a = self.block(s.body + rest, final, d1)
                self.vtypes = dict(saved)
                b = self.block(s.orelse + rest, final, d2)
                defined |= (d1 & d2)
                return f"(if {c} then{ind}{a}{ind}else{ind}{b})"
            names = [n for n in assigned_names(s.body + s.orelse) if n not in self.ignore]
            d1, d2 = set(defined), set(defined)
            # variables possibly unbound before the join get a default first
            pre = ""
            a_names = set(assigned_names(s.body)) - self.ignore
            b_names = set(assigned_names(s.orelse)) - self.ignore
            for nm in names:
                if nm not in defined and not nm.startswith('self_') and not (nm in a_names and nm in b_names):
                    pre += f"let {nm} := dflt in{ind}"
                    self.notes.append(f"{self.coqname}: `{nm}` may be unbound at a join; defaulted")
                    d1.add(nm); d2.add(nm)
            tup = self.tuple_of(names)
            a = self.block(s.body, tup, d1)
            b = self.block(s.orelse, tup, d2)
            defined |= set(names)
            return f"{pre}let {self.pat_of(names)} :={ind}(if {c} then{ind}{a}{ind}else{ind}{b}) in{ind}" \
                   f"{self.block(rest, final, defined)}"
        if isinstance(s, (ast.For, ast.While)):
            if s.orelse:
                raise Unsupported("loop-else")
            is_while = isinstance(s, ast.While)
            if is_while:
                if not (self.raises and self.fuel):
                    raise Unsupported("while loop needs a raising function with a fuel bound")
                fuel_ast = ast.parse(self.fuel, mode="eval").body
                it = f"(repeatQ tt {self.expr(fuel_ast)})"
                pat = "_"
                tnames = set()
            else:
                it = self.iter_expr(s.iter)
                self.bind_target_types(s.target, s.iter)
                pat = self.pattern(s.target)
                tnames = set(target_names(s.target))
            state = [n for n in assigned_names(s.body) if n not in tnames and n not in self.ignore]
            # loop-local temporaries (definitely assigned at the top of the body before any read, never read outside the loop)
            state = [n for n in state if n in defined or n.startswith('self_') or not self.loop_local(n, s)]
            need_default = []
            for nm in state:
                if nm not in defined and not nm.startswith('self_'):
                    need_default.append(nm)
                    self.notes.append(f"{self.coqname}: `{nm}` assigned only inside a loop; initialised with a default")
                    defined.add(nm)
            brk = has_break(s.body) or is_while
            err = self.raises and contains_raising(s.body, self.gen.raising)
            ctrl = (["brk_"] if brk else []) + (["err_"] if err else [])
            self.loopstack.append({"state": state, "brk": brk, "err": err})
            fall = self.tuple_of((["false"] if brk else []) + (["err_"] if err else []) + state)
            body = self.block(s.body, fall, set(defined) | tnames)
            if is_while:
                stop = self.tuple_of(["true"] + (["err_"] if err else []) + state)
                body = f"(if {self.expr(s.test)} then{ind}{body}{ind}else {stop})"
            self.loopstack.pop()
            stpat = self.pat_of(ctrl + state)
            init = self.tuple_of((["false"] if brk else []) + (["(@None exn)"] if err else []) + state)
            guard = ""
            if brk and err:
                guard = f"if (brk_ : bool) || (match err_ with Some _ => true | None => false end) then st_ else{ind}"
            elif brk:
                guard = f"if (brk_ : bool) then st_ else{ind}"
            elif err:
                guard = f"if (match err_ with Some _ => true | None => false end) then st_ else{ind}"
            if not state and not brk and not err:
                raise Unsupported("loop without effect")
            loop = (f"fold_left (fun st_ {pat} =>{ind}"
                    f"let {stpat} := st_ in{ind}{guard}{body}){ind}{it} {init}")
            after = self.block(rest, final, defined)
            if is_while:
                after = f"(if (brk_ : bool) then{ind}{after}{ind}else Err OutOfFuel)"
            if err:
                if self.loopstack:
                    # propagate to the enclosing loop
                    outer = self.loopstack[-1]
                    if not outer.get("err"):
                        raise Unsupported("nested raising loop inside a loop without error state")
                    prop = self.tuple_of((["true"] if outer["brk"] else []) + ["(Some e_)"] + outer["state"])
                    after = f"match err_ with Some e_ => {prop} | None =>{ind}{after}{ind}end"
                else:
                    after = f"match err_ with Some e_ => Err e_ | None =>{ind}{after}{ind}end"
            pre = ""
            for nm in need_default:
                ty = self.vtypes.get(nm, "")
                ann = f"(dflt : {ty})" if (ty == "Q" or ty == "bool" or ty.startswith("list ") or "*" in ty) else "dflt"
                pre += f"let {nm} := {ann} in{ind}"
            return f"{pre}let {stpat} :={ind}{loop} in{ind}{after}"
        raise Unsupported("statement " + type(s).__name__)

    def loop_local(self, name, loop):
        """is `name` a temporary of this loop's body?"""
        def reads(node):
            return any(isinstance(n, ast.Name) and cname(n.id) == name and isinstance(n.ctx, ast.Load) for n in ast.walk(node))
        # read anywhere in the function outside this loop -> not local
        for n in ast.walk(self.fn):
            if n is loop:
                continue
        outside = False
        def walk_out(node):
            nonlocal outside
            for ch in ast.iter_child_nodes(node):
                if ch is loop:
                    continue
                if isinstance(ch, ast.Name) and cname(ch.id) == name and isinstance(ch.ctx, ast.Load):
                    outside = True
                walk_out(ch)
        walk_out(self.fn)
        if outside:
            return False
        for st in loop.body:
            if isinstance(st, ast.Assign) and len(st.targets) == 1 and isinstance(st.targets[0], ast.Name) \
                    and cname(st.targets[0].id) == name and not reads(st.value):
                return True
            if reads(st) or name in assigned_names([st]):
                return False
        return False

    def final_return(self):
        if self.returns is None:
            raise Unsupported("function falls off the end / bare return without declared returns")
        return self.tuple_of([cname(r.replace(".", "_")) for r in self.returns])

    def translate(self):
        if self.declared_extra_strict:
            for pth in self.declared_extra_strict:
                nm = cname(pth.replace(".", "_"))
                if nm not in self.vtypes:
                    self.vtypes[nm] = self.ptypes.get(nm, "Q")
                if nm not in self.selfattrs:
                    self.selfattrs.append(nm)
        defined = set(self.params) | set(self.declared_extra) | set(self.selfattrs)
        body_stmts = list(self.fn.body)
        # pre-mark declared returns (self attributes mutated) as defined inputs
        if self.returns:
            for r in self.returns:
                nm = cname(r.replace(".", "_"))
                if nm not in self.vtypes:
                    self.vtypes[nm] = self.ptypes.get(nm, "list Q")
                if nm not in self.declared_extra:
                    self.declared_extra.append(nm)
                defined.add(nm)

        def fin():
            v = self.final_return()
            return f"(Ok {v})" if self.raises else v
        body = self.block(body_stmts, fin, defined)
        extra = list(self.declared_extra)
        for a in self.selfattrs:
            if a not in extra:
                extra.append(a)
        if self.declared_extra_strict is not None:
            want = [cname(p.replace(".", "_")) for p in self.declared_extra_strict]
            if sorted(want) != sorted(extra):
                raise Unsupported(f"{self.coqname}: attribute parameters changed: source reads {sorted(extra)}, "
                                  f"model expects {sorted(want)}")
            extra = want
        ps = []
        for p in self.params + extra:
            ty = self.vtypes.get(p, "Q")
            ty = self.ptypes.get(p, ty)
            if ty == "list":
                ty = "list Q"
            if ty.startswith("enum:"):
                ty = ty[5:]
            ps.append(f"({p} : {ty})")
        for k, v in ({} if self.no_abstract_params else self.abstract).items():
            ps.append(f"({v.split()[0]} : {self.ptypes.get(v, 'Q -> Q')})")
        return f"Definition {self.coqname} {' '.join(ps)} :=\n{body}."

    declared_extra_strict = None


def contains_raising(stmts, raising):
    for st in stmts:
        for n in ast.walk(st):
            if isinstance(n, ast.Raise):
                return True
            if isinstance(n, ast.Assign) and isinstance(n.value, ast.Subscript) and not isinstance(n.value.slice, ast.Slice) \
                    and isinstance(n.value.value, ast.Name) and len(n.targets) == 1 and isinstance(n.targets[0], ast.Name):
                return True
            if isinstance(n, ast.Call) and isinstance(n.func, ast.Name) and n.func.id in raising:
                return True
    return False


def has_break(stmts):
    def walk(ss):
        for s in ss:
            if isinstance(s, ast.Break):
                return True
            if isinstance(s, ast.If) and (walk(s.body) or walk(s.orelse)):
                return True
        return False
    return walk(stmts)


class Gen:
    def __init__(self):
        self.trees = {}
        self.consts = {}
        self.const_types = {}
        self.enums = {}
        self.funcs = {}          # python name -> coq name
        self.sigs = {}           # python name -> (arg names, {name: default ast})
        self.raising = set()     # python names of translated functions that return `result`
        self.func_rettypes = {}
        self.out = []
        self.notes = []
        self.sources = []

    def tree(self, fname):
        if fname not in self.trees:
            path = os.path.join(PKG, fname)
            with open(path) as f:
                src = f.read()
            self.trees[fname] = ast.parse(src)
            self.sources.append((fname, hashlib.sha256(src.encode()).hexdigest()[:16]))
        return self.trees[fname]

    def find(self, fname, qual):
        """qual like 'Class.method' or 'func' or 'Class.method.nested'"""
        node = self.tree(fname)
        for part in qual.split("."):
            found = None
            for n in ast.walk(node) if isinstance(node, ast.FunctionDef) else node.body:
                if isinstance(n, (ast.FunctionDef, ast.ClassDef)) and n.name == part and n is not node:
                    found = n
                    break
            if found is None:
                raise Unsupported(f"{fname}: {qual} not found")
            node = found
        return node

    def const(self, fname, name, coqname=None):
        for n in self.tree(fname).body:
            if isinstance(n, ast.Assign) and len(n.targets) == 1 and isinstance(n.targets[0], ast.Name) \
                    and n.targets[0].id == name:
                if isinstance(n.value, ast.Constant) and isinstance(n.value.value, (int, float)) \
                        and not isinstance(n.value.value, bool):
                    cn = coqname or name
                    self.consts[name] = cn
                    self.const_types[name] = "Q"
                    self.out.append(f"Definition {cn} : Q := {qlit(n.value.value)}.")
                    return
                raise Unsupported(f"{fname}: constant {name} is not a numeric literal")
        raise Unsupported(f"{fname}: constant {name} not found")

    def enum(self, fname, cls):
        node = self.find(fname, cls)
        members = []
        for n in node.body:
            if isinstance(n, ast.Assign) and isinstance(n.targets[0], ast.Name):
                members.append(n.targets[0].id)
        if not members:
            raise Unsupported(f"enum {cls} has no members")
        self.enums[cls] = members
        self.out.append(f"Inductive {cls} := " + " | ".join(f"{cls}_{m}" for m in members) + ".")
        cases = " | ".join(f"{cls}_{m}, {cls}_{m}" for m in members)
        self.out.append(f"Definition {cls}_eqb (a b : {cls}) : bool := match a, b with {cases} => true"
                        + (" | _, _ => false" if len(members) > 1 else "") + " end.")
        self.out.append(f"Definition {cls}_members : list {cls} := [" + "; ".join(f"{cls}_{m}" for m in members) + "].")
        self.out.append(f"Definition {cls}_names : list string := {self.slist(members)}.")

    def func(self, fname, qual, coqname=None, pyname=None, rettype="Q", extra_strict=None, **kw):
        node = self.find(fname, qual)
        if not isinstance(node, ast.FunctionDef):
            raise Unsupported(f"{qual} is not a function")
        cn = coqname or qual.split(".")[-1]
        tr = FuncTr(self, node, cn, **kw)
        tr.declared_extra_strict = extra_strict
        text = tr.translate()
        self.out.append(f"(* {fname}:{node.lineno} {qual} *)\n{text}")
        key = pyname or qual.split(".")[-1]
        self.funcs[key] = cn
        self.func_rettypes[key] = rettype
        a = node.args
        names = [x.arg for x in a.args if x.arg not in ("self", "cls")]
        defaults = dict(zip(names[len(names) - len(a.defaults):], a.defaults))
        self.sigs[key] = (names, defaults)
        if kw.get("raises"):
            self.raising.add(key)
        self.notes += tr.notes
        return tr

    def assign_expr(self, fname, qual, target, coqname, params, ptypes=None, index=None, attrs=None, abstract=None):
        """the right-hand side of the unique assignment `target = ...` inside function `qual`"""
        node = self.find(fname, qual)
        hits = []
        for n in ast.walk(node):
            if isinstance(n, ast.Assign) and len(n.targets) == 1:
                t = n.targets[0]
                tn = None
                if isinstance(t, ast.Name):
                    tn = t.id
                elif isinstance(t, ast.Attribute):
                    ch = attr_chain(t)
                    tn = ".".join(ch) if ch else None
                if tn == target:
                    hits.append(n)
        if index is not None:
            if index >= len(hits):
                raise Unsupported(f"{qual}: assignment #{index} to {target} not found")
            hits = [hits[index]]
        if len(hits) != 1:
            raise Unsupported(f"{qual}: expected exactly one assignment to {target}, found {len(hits)}")
        fake = ast.FunctionDef(name=coqname, args=ast.arguments(posonlyargs=[], args=[ast.arg(arg=p) for p in params],
                                                                 kwonlyargs=[], kw_defaults=[], defaults=[]),
                               body=[ast.Return(value=hits[0].value)], decorator_list=[])
        tr = FuncTr(self, fake, coqname, ptypes=ptypes, abstract=abstract, no_abstract_params=bool(abstract))
        tr.declared_extra_strict = attrs or []
        text = tr.translate()
        self.out.append(f"(* {fname}:{hits[0].lineno} {qual}: {target} = ... *)\n{text}")
        self.funcs[coqname] = coqname
        return hits[0]

    def list_const_in(self, fname, qual, target, coqname, index=None):
        """a literal numeric list assigned to `target` inside `qual`"""
        node = self.find(fname, qual)
        hits = [n for n in ast.walk(node) if isinstance(n, ast.Assign) and len(n.targets) == 1
                and isinstance(n.targets[0], ast.Name) and n.targets[0].id == target and isinstance(n.value, ast.List)]
        if index is not None:
            hits = [hits[index]] if index < len(hits) else []
        if len(hits) != 1:
            raise Unsupported(f"{qual}: expected one list literal for {target}, found {len(hits)}")
        vals = []
        for e in hits[0].value.elts:
            if not (isinstance(e, ast.Constant) and isinstance(e.value, (int, float))):
                raise Unsupported(f"{qual}: {target} holds a non-literal")
            vals.append(qlit(e.value))
        self.out.append(f"(* {fname}:{hits[0].lineno} {qual}: {target} *)\nDefinition {coqname} : list Q := [" + "; ".join(vals) + "].")

    def default_arg(self, fname, qual, arg, coqname):
        node = self.find(fname, qual)
        a = node.args
        names = [x.arg for x in a.args]
        defaults = dict(zip(names[len(names) - len(a.defaults):], a.defaults))
        for x, dv in zip(a.kwonlyargs, a.kw_defaults):
            defaults[x.arg] = dv
        if arg not in defaults or not isinstance(defaults[arg], ast.Constant) or \
                not isinstance(defaults[arg].value, (int, float)) or isinstance(defaults[arg].value, bool):
            raise Unsupported(f"{qual}: no numeric default for {arg}")
        self.out.append(f"(* {fname}:{node.lineno} {qual}: default {arg} *)\nDefinition {coqname} : Q := {qlit(defaults[arg].value)}.")

    def same_ast(self, fname, qual1, qual2):
        a, b = self.find(fname, qual1), self.find(fname, qual2)
        if ast.dump(ast.Module(body=a.body, type_ignores=[])) != ast.dump(ast.Module(body=b.body, type_ignores=[])):
            raise Unsupported(f"{qual1} and {qual2} are no longer identical")
        self.out.append(f"(* obligation checked by the translator: {qual1} and {qual2} have identical bodies *)")

    @staticmethod
    def slist(xs):
        return "[" + "; ".join('"' + x + '"' for x in xs) + "]%string"

    def dict_keys(self, fname, qual, coqname):
        """keys of the dict literal returned by `qual` (a to_input method)"""
        node = self.find(fname, qual)
        rets = [n for n in ast.walk(node) if isinstance(n, ast.Return) and isinstance(n.value, ast.Dict)]
        if len(rets) != 1:
            raise Unsupported(f"{qual}: expected one `return {{...}}`")
        keys = []
        for k in rets[0].value.keys:
            if not (isinstance(k, ast.Constant) and isinstance(k.value, str)):
                raise Unsupported(f"{qual}: non-literal key")
            keys.append(k.value)
        self.out.append(f"(* {fname}:{node.lineno} {qual}: keys written *)\nDefinition {coqname} : list string := {self.slist(keys)}.")

    def subscript_keys(self, fname, qual, var, coqname, mode="store", guard=None, toplevel=False):
        """string keys used with dict `var` inside `qual`.
        mode store: `var['k'] = ...` and keys of a dict literal assigned to var;  load: `var['k']` read;  get: `var.get('k', ...)`.
        guard: only inside the body of an `if`/`elif` whose test contains that text.  toplevel: only outside every `if`."""
        node = self.find(fname, qual)
        keys = []

        def add(k):
            if k not in keys:
                keys.append(k)

        def scan_expr(n):
            for ch in ast.walk(n):
                if isinstance(ch, ast.Subscript) and isinstance(ch.value, ast.Name) and ch.value.id == var and \
                        isinstance(ch.slice, ast.Constant) and isinstance(ch.slice.value, str):
                    st = isinstance(ch.ctx, ast.Store)
                    if (mode == "store" and st) or (mode == "load" and not st):
                        add(ch.slice.value)
                if mode == "get" and isinstance(ch, ast.Call) and isinstance(ch.func, ast.Attribute) and ch.func.attr == "get" and \
                        isinstance(ch.func.value, ast.Name) and ch.func.value.id == var and ch.args and isinstance(ch.args[0], ast.Constant):
                    add(ch.args[0].value)
                if mode == "store" and isinstance(ch, ast.Assign) and len(ch.targets) == 1 and isinstance(ch.targets[0], ast.Name) and \
                        ch.targets[0].id == var and isinstance(ch.value, ast.Dict):
                    for k in ch.value.keys:
                        if isinstance(k, ast.Constant) and isinstance(k.value, str):
                            add(k.value)

        def walk(stmts, active, depth):
            for st in stmts:
                if isinstance(st, ast.If):
                    tt_ = ast.unparse(st.test)
                    hit = guard is not None and (tt_.endswith(guard) or (guard.startswith('in [') and guard in tt_))
                    # the test expression itself belongs to the enclosing context
                    if (guard is None and not (toplevel and depth > 0)) or active:
                        scan_expr(st.test)
                    walk(st.body, active or hit, depth + 1)
                    walk(st.orelse, active, depth + 1)
                elif isinstance(st, (ast.For, ast.While, ast.With, ast.Try)):
                    walk(getattr(st, "body", []), active, depth)
                else:
                    if guard is None:
                        if not (toplevel and depth > 0):
                            scan_expr(st)
                    elif active:
                        scan_expr(st)
        walk(node.body, False, 0)
        tag = mode + (", under `" + guard + "`" if guard else "") + (", top level" if toplevel else "")
        self.out.append(f"(* {fname}:{node.lineno} {qual}: {var} keys ({tag}) *)\nDefinition {coqname} : list string := {self.slist(keys)}.")

    def arg_names(self, fname, qual, coqname, drop=("self", "throw")):
        node = self.find(fname, qual)
        names = [a.arg for a in node.args.args if a.arg not in drop]
        self.out.append(f"(* {fname}:{node.lineno} {qual}: parameter names *)\nDefinition {coqname} : list string := {self.slist(names)}.")

    def call_args(self, fname, qual, callee, coqname):
        """the arguments of the unique call of `callee` inside `qual`, as source text: positional ones as "pos:<expr>", keyword ones as
        "<name>=<expr>" — the wiring between two layers, pinned so that a value dropped, added, swapped or replaced there is an obligation"""
        node = self.find(fname, qual)
        hits = [n for n in ast.walk(node) if isinstance(n, ast.Call) and ((isinstance(n.func, ast.Name) and n.func.id == callee) or
                                                                          (isinstance(n.func, ast.Attribute) and n.func.attr == callee))]
        if len(hits) != 1:
            raise Unsupported(f"{qual}: expected exactly one call of {callee}, found {len(hits)}")
        c = hits[0]
        if any(isinstance(a, ast.Starred) for a in c.args) or any(k.arg is None for k in c.keywords):
            raise Unsupported(f"{qual}: call of {callee} uses * or ** arguments")
        items = ["pos:" + ast.unparse(a) for a in c.args] + [f"{k.arg}=" + ast.unparse(k.value) for k in c.keywords]
        self.out.append(f"(* {fname}:{c.lineno} {qual}: arguments of the call of {callee} *)\nDefinition {coqname} : list string := {self.slist(items)}.")

    def name_chain(self, fname, qual, var, target, enum, coqname):
        """an `if var == Enum.X.name: target = Enum.Y ... else: raise` chain inside `qual`: the list of (X, Y) pairs, in order.  Anything else in the
        chain (another comparison, another right-hand side, a branch that does more than the one assignment) is unsupported."""
        node = self.find(fname, qual)
        top = [n for n in node.body if isinstance(n, ast.If) and ast.unparse(n.test).startswith(f"{var} == {enum}.")]
        if len(top) != 1:
            raise Unsupported(f"{qual}: expected exactly one if-chain on {var} == {enum}.<member>.name, found {len(top)}")
        pairs = []
        cur = top[0]
        while True:
            t = cur.test
            ok = (isinstance(t, ast.Compare) and len(t.ops) == 1 and isinstance(t.ops[0], ast.Eq) and ast.unparse(t.left) == var
                  and re.fullmatch(re.escape(enum) + r"\.(\w+)\.name", ast.unparse(t.comparators[0])))
            if not ok:
                raise Unsupported(f"{qual}: unsupported test in the {enum} chain: {ast.unparse(t)}")
            x = ast.unparse(t.comparators[0]).split(".")[1]
            if not (len(cur.body) == 1 and isinstance(cur.body[0], ast.Assign) and ast.unparse(cur.body[0].targets[0]) == target
                    and re.fullmatch(re.escape(enum) + r"\.(\w+)", ast.unparse(cur.body[0].value))):
                raise Unsupported(f"{qual}: unsupported branch body in the {enum} chain")
            pairs.append((x, ast.unparse(cur.body[0].value).split(".")[1]))
            if len(cur.orelse) == 1 and isinstance(cur.orelse[0], ast.If):
                cur = cur.orelse[0]
                continue
            if not (len(cur.orelse) == 1 and isinstance(cur.orelse[0], ast.Raise)):
                raise Unsupported(f"{qual}: the {enum} chain must end in `else: raise`")
            break
        lit = "[" + "; ".join(f'("{a}", "{b}")' for a, b in pairs) + "]%string"
        self.out.append(f"(* {fname}:{top[0].lineno} {qual}: {var} == {enum}.X.name -> {target} = {enum}.Y *)\nDefinition {coqname} : list (string * string) := {lit}.")

    def name_dict(self, fname, qual, target, enum, coqname):
        """a dict literal {Enum.X.name: "<string>", ...} assigned to `target` inside `qual`: the list of (X, string) pairs"""
        node = self.find(fname, qual)
        hits = [n for n in ast.walk(node) if isinstance(n, ast.Assign) and len(n.targets) == 1 and ast.unparse(n.targets[0]) == target and isinstance(n.value, ast.Dict)]
        if len(hits) != 1:
            raise Unsupported(f"{qual}: expected one dict literal for {target}")
        pairs = []
        for k, v in zip(hits[0].value.keys, hits[0].value.values):
            m = re.fullmatch(re.escape(enum) + r"\.(\w+)\.name", ast.unparse(k))
            if not (m and isinstance(v, ast.Constant) and isinstance(v.value, str)):
                raise Unsupported(f"{qual}: {target} holds an entry that is not {enum}.X.name: '<string>'")
            pairs.append((m.group(1), v.value))
        lit = "[" + "; ".join(f'("{a}", "{b}")' for a, b in pairs) + "]%string"
        self.out.append(f"(* {fname}:{hits[0].lineno} {qual}: {target} *)\nDefinition {coqname} : list (string * string) := {lit}.")

    def dict_values(self, fname, qual, coqname):
        """(key, value expression as source text) of the dict literal returned by `qual`"""
        node = self.find(fname, qual)
        rets = [n for n in ast.walk(node) if isinstance(n, ast.Return) and isinstance(n.value, ast.Dict)]
        if len(rets) != 1:
            raise Unsupported(f"{qual}: expected one `return {{...}}`")
        pairs = []
        for k, v in zip(rets[0].value.keys, rets[0].value.values):
            if not (isinstance(k, ast.Constant) and isinstance(k.value, str)):
                raise Unsupported(f"{qual}: non-literal key")
            pairs.append((k.value, ast.unparse(v)))
        lit = "[" + "; ".join(f'("{a}", "{b}")' for a, b in pairs) + "]%string"
        self.out.append(f"(* {fname}:{node.lineno} {qual}: values written *)\nDefinition {coqname} : list (string * string) := {lit}.")

    def schema(self, schema_file, coqname):
        path = os.path.join(PKG, "schemas", schema_file)
        with open(path) as f:
            txt = f.read()
        self.sources.append(("schemas/" + schema_file, hashlib.sha256(txt.encode()).hexdigest()[:16]))
        sc = json.loads(txt)
        props = list(sc.get("properties", {}).keys())
        req = list(sc.get("required", []))
        addl = sc.get("additionalProperties", True)
        self.out.append(f"(* schemas/{schema_file} *)\nDefinition {coqname}_properties : list string := {self.slist(props)}.\n"
                        f"Definition {coqname}_required : list string := {self.slist(req)}.\n"
                        f"Definition {coqname}_additional : bool := {'true' if addl else 'false'}.")

    def gf_plan(self):
        """the decision prefix of GFunction.g_function_interpolation (everything before the interpolation tables are built): snapping of the
        equivalent height, extrapolation flag, choice of the interpolation kind.  The numeric part is translated statement by statement
        (strings '' / 'extrapolate' of fill_value become false / true); the kind chain and the two dict literals become tables; the shape of the
        surrounding control flow is emitted as source text, which Model/GfPlan.v pins."""
        import copy
        fname, qual = "gfunction.py", "GFunction.g_function_interpolation"
        node = self.find(fname, qual)
        body = node.body
        texts = [ast.unparse(s) for s in body]
        def at(i, prefix):
            if i >= len(body) or not texts[i].startswith(prefix):
                raise Unsupported(f"{qual}: statement {i} is expected to start with `{prefix}`, found `{texts[i][:60] if i < len(body) else None}`")
            return body[i]
        at(0, "h_eq = "); at(1, "tolerance = "); at(2, "height_values = list(self.g_lts.keys())"); at(3, "close_tolerance = ")
        for i in (4, 5, 6):
            if not isinstance(at(i, "if "), ast.If):
                raise Unsupported(f"{qual}: statement {i} is not an if")
        fill = copy.deepcopy(body[6])
        warn = [s for s in fill.orelse if isinstance(s, ast.Expr) and ast.unparse(s).startswith("warnings.warn(")]
        fill.orelse = [s for s in fill.orelse if s not in warn]

        class Fill(ast.NodeTransformer):
            def visit_Constant(self, n):
                if n.value == "":
                    return ast.copy_location(ast.Constant(value=False), n)
                if n.value == "extrapolate":
                    return ast.copy_location(ast.Constant(value=True), n)
                if isinstance(n.value, str):
                    raise Unsupported(f"{qual}: unexpected string {n.value!r} in the fill_value statement")
                return n
        stm = [copy.deepcopy(body[i]) for i in (1, 3, 4, 5)] + [Fill().visit(fill)]
        stm.append(ast.Return(value=ast.Tuple(elts=[ast.Name(id="h_eq", ctx=ast.Load()), ast.Name(id="fill_value", ctx=ast.Load())], ctx=ast.Load())))
        mk = lambda name, params, b: ast.fix_missing_locations(ast.FunctionDef(
            name=name, args=ast.arguments(posonlyargs=[], args=[ast.arg(arg=p) for p in params], kwonlyargs=[], kw_defaults=[], defaults=[]),
            body=b, decorator_list=[], lineno=node.lineno, col_offset=0))
        tr = FuncTr(self, mk("gf_snap_fill", ["h_eq", "height_values"], stm), "gf_snap_fill", ptypes={"height_values": "list Q"})
        self.out.append(f"(* {fname}:{body[1].lineno} {qual}: statements 1,3-6 (height snapping, extrapolation flag) *)\n{tr.translate()}")
        # ---- kind == "default" chain
        top = at(7, "if kind == 'default':")
        if top.orelse or len(top.body) != 2 or ast.unparse(top.body[0]) != "num_curves = len(height_values)" or not isinstance(top.body[1], ast.If):
            raise Unsupported(f"{qual}: unexpected shape of the kind == 'default' branch")
        chain = []
        cur = top.body[1]
        while True:
            t = cur.test
            m = re.fullmatch(r"num_curves (>=|==) (\d+)", ast.unparse(t))
            if m:
                if not (len(cur.body) == 1 and isinstance(cur.body[0], ast.Assign) and ast.unparse(cur.body[0].targets[0]) == "kind"
                        and isinstance(cur.body[0].value, ast.Constant) and isinstance(cur.body[0].value.value, str)):
                    raise Unsupported(f"{qual}: a branch of the default-kind chain does more than assign a kind")
                chain.append((m.group(1), int(m.group(2)), cur.body[0].value.value))
                if not (len(cur.orelse) == 1 and isinstance(cur.orelse[0], ast.If)):
                    raise Unsupported(f"{qual}: the default-kind chain must end in the single-curve test")
                cur = cur.orelse[0]
                continue
            break
        single_body = "; ".join(ast.unparse(s) for s in cur.body)
        single_else = "; ".join(re.sub(r"\(.*\)$", "(...)", ast.unparse(s), flags=re.S) for s in cur.orelse)
        tr = FuncTr(self, mk("gf_single_ok", ["h_eq", "height_values", "tolerance"], [ast.Return(value=cur.test)]), "gf_single_ok", ptypes={"height_values": "list Q"})
        self.out.append(f"(* {fname}:{cur.lineno} {qual}: the single-curve test of the default chain *)\n{tr.translate()}")
        lit = "[" + "; ".join(f'("{op}", {k}%Z, "{kind}")' for op, k, kind in chain) + "]%string"
        self.out.append(f"(* {fname}:{top.lineno} {qual}: default-kind chain *)\nDefinition gf_default_chain : list (string * Z * string) := {lit}.")
        # ---- the two dict literals
        def dict_lit(i, name):
            a = at(i, name + " = {")
            if not isinstance(a.value, ast.Dict) or not all(isinstance(k, ast.Constant) and isinstance(v, ast.Constant) for k, v in zip(a.value.keys, a.value.values)):
                raise Unsupported(f"{qual}: {name} is not a literal dict")
            return [(k.value, v.value) for k, v in zip(a.value.keys, a.value.values)]
        ik = dict_lit(8, "interpolation_kinds")
        cb = dict_lit(9, "curves_by_kind")
        if not all(isinstance(k, str) and isinstance(v, int) for k, v in ik) or not all(isinstance(k, int) and isinstance(v, str) for k, v in cb):
            raise Unsupported(f"{qual}: unexpected key/value types in the kind tables")
        self.out.append(f"(* {fname}:{body[8].lineno} {qual}: interpolation_kinds, curves_by_kind *)\n"
                        "Definition gf_interpolation_kinds : list (string * Z) := [" + "; ".join(f'("{k}"%string, {v}%Z)' for k, v in ik) + "].\n"
                        "Definition gf_curves_by_kind : list (Z * string) := [" + "; ".join(f'({k}%Z, "{v}"%string)' for k, v in cb) + "].")
        # ---- control flow around the tables, as text (pinned by Model/GfPlan.v)
        red = re.sub(r"raise ValueError\(.*?\)\n", "raise ValueError(...)\n", texts[10], flags=re.S)
        red = " | ".join(l.strip() for l in red.splitlines() if l.strip() and not l.strip().startswith("#"))
        at(11, "if len(self.interpolation_table) == 0:")
        def esc(x):
            return x.replace('"', '""')
        self.out.append(f"(* {fname}:{body[10].lineno} {qual}: control flow around the tables, as source text *)\n"
                        f'Definition gf_reduce_source : string := "{esc(red)}"%string.\n'
                        f'Definition gf_single_branch_source : string := "{esc(single_body)} || {esc(single_else)}"%string.\n'
                        f'Definition gf_fill_else_source : string := "{esc("; ".join(re.sub(r"[(].*[)]$", "(...)", ast.unparse(w), flags=re.S) for w in warn))}"%string.')

    def table_rows(self, fname, qual, coqname, source_stmt, param, ptype, header_coqname):
        """a CSV table builder of the form `[<source> = <attribute chain>]; csv_array = [[<header strings>]]; for ...: csv_array.append([...]);
        return csv_array`: the loop is translated as a function of the iterated list (the header row, being text, becomes a string list)"""
        import copy
        node = self.find(fname, qual)
        body = [s for s in node.body if not (isinstance(s, ast.Expr) and isinstance(s.value, ast.Constant))]
        i = 0
        if source_stmt is not None:
            if ast.unparse(body[0]) != source_stmt:
                raise Unsupported(f"{qual}: first statement is expected to be `{source_stmt}`, found `{ast.unparse(body[0])[:80]}`")
            i = 1
        if len(body) != i + 3:
            raise Unsupported(f"{qual}: expected header, one loop and a return, found {len(body) - i} statements")
        hd, loop, ret = body[i], body[i + 1], body[i + 2]
        ok = (isinstance(hd, ast.Assign) and ast.unparse(hd.targets[0]) == "csv_array" and isinstance(hd.value, ast.List) and len(hd.value.elts) == 1
              and isinstance(hd.value.elts[0], ast.List) and all(isinstance(e, ast.Constant) and isinstance(e.value, str) for e in hd.value.elts[0].elts))
        if not ok:
            raise Unsupported(f"{qual}: csv_array must start as one header row of string literals")
        if not isinstance(loop, ast.For) or loop.orelse or ast.unparse(ret) != "return csv_array":
            raise Unsupported(f"{qual}: expected `for ...` then `return csv_array`")
        it = loop.iter
        inner = it.args[0] if (isinstance(it, ast.Call) and isinstance(it.func, ast.Name) and it.func.id == "enumerate" and len(it.args) == 1) else it
        want = param if source_stmt is not None else None
        if want is not None and ast.unparse(inner) != want:
            raise Unsupported(f"{qual}: the loop must iterate over {want}")
        lp = copy.deepcopy(loop)
        if want is None:
            # the loop iterates over an attribute chain: it becomes the parameter
            self.out.append(f"(* {fname}:{loop.lineno} {qual}: iterates over {ast.unparse(inner)} *)\n"
                            f'Definition {coqname}_source : string := "{ast.unparse(inner)}"%string.')
            nm = ast.Name(id=param, ctx=ast.Load())
            if inner is it:
                lp.iter = nm
            else:
                lp.iter.args[0] = nm
        fake = ast.FunctionDef(name=coqname, args=ast.arguments(posonlyargs=[], args=[ast.arg(arg=param)], kwonlyargs=[], kw_defaults=[], defaults=[]),
                               body=[ast.parse("csv_array = []").body[0], lp, copy.deepcopy(ret)], decorator_list=[], lineno=node.lineno, col_offset=0)
        ast.fix_missing_locations(fake)
        tr = FuncTr(self, fake, coqname, ptypes={param: ptype})
        self.out.append(f"(* {fname}:{node.lineno} {qual}: the data rows *)\n{tr.translate()}")
        self.out.append(f"(* {fname}:{hd.lineno} {qual}: header row *)\nDefinition {header_coqname} : list string := {self.slist([e.value for e in hd.value.elts[0].elts])}.")

    def loop_rows(self, fname, qual, coqname, params, pinned):
        """the single `for` loop of a table builder whose inputs are produced by other statements: the loop is translated as a function of `params`
        (all lists of numbers); the statements listed in `pinned` must be present verbatim and are emitted as text (they say where the inputs come from)"""
        import copy
        node = self.find(fname, qual)
        texts = [ast.unparse(s) for s in node.body]
        for t in pinned:
            if t not in texts:
                raise Unsupported(f"{qual}: statement `{t}` not found")
        loops = [s for s in node.body if isinstance(s, ast.For)]
        if len(loops) != 1 or loops[0].orelse or node.body[-1] is loops[0] or ast.unparse(node.body[-1]) != "return csv_array" or node.body[-2] is not loops[0]:
            raise Unsupported(f"{qual}: expected exactly one loop, directly followed by `return csv_array`")
        assigned = [ast.unparse(t) for s in node.body if isinstance(s, ast.Assign) for t in s.targets]
        if assigned.count("csv_array") != 1:
            raise Unsupported(f"{qual}: csv_array must be assigned once (the header) before the loop")
        fake = ast.FunctionDef(name=coqname, args=ast.arguments(posonlyargs=[], args=[ast.arg(arg=a) for a in params], kwonlyargs=[], kw_defaults=[], defaults=[]),
                               body=[ast.parse("csv_array = []").body[0], copy.deepcopy(loops[0]), ast.parse("return csv_array").body[0]],
                               decorator_list=[], lineno=node.lineno, col_offset=0)
        ast.fix_missing_locations(fake)
        tr = FuncTr(self, fake, coqname, ptypes={a: "list Q" for a in params})
        self.out.append(f"(* {fname}:{loops[0].lineno} {qual}: the data rows *)\n{tr.translate()}")
        self.out.append(f"(* {fname}:{node.lineno} {qual}: where the columns come from *)\nDefinition {coqname}_sources : list string := {self.slist(pinned)}.")

    def if_test(self, fname, qual, body_text, coqname, params, rettype="bool", mentions=None):
        """the test of the unique `if` inside `qual` whose body is exactly `body_text`, as a boolean function of `params`"""
        node = self.find(fname, qual)
        hits = [n for n in ast.walk(node) if isinstance(n, ast.If) and not n.orelse and "; ".join(ast.unparse(b) for b in n.body) == body_text
                and (mentions is None or any(isinstance(x, ast.Name) and x.id == mentions for x in ast.walk(n.test)))]
        if len(hits) != 1:
            raise Unsupported(f"{qual}: expected exactly one `if ...: {body_text}`, found {len(hits)}")
        fake = ast.FunctionDef(name=coqname, args=ast.arguments(posonlyargs=[], args=[ast.arg(arg=p) for p in params], kwonlyargs=[], kw_defaults=[], defaults=[]),
                               body=[ast.Return(value=hits[0].test)], decorator_list=[], lineno=hits[0].lineno, col_offset=0)
        ast.fix_missing_locations(fake)
        tr = FuncTr(self, fake, coqname)
        self.out.append(f"(* {fname}:{hits[0].lineno} {qual}: test of `if ...: {body_text}` *)\n{tr.translate()}")
        self.funcs[coqname] = coqname
        self.func_rettypes[coqname] = rettype

    def raw(self, text):
        self.out.append(text)


def build_spec(g):
    """what is extracted, in dependency order"""
    g.const("constants.py", "HRS_IN_DAY")
    g.const("constants.py", "SEC_IN_HR")
    for cls in ("BHPipeType", "TimestepType", "FlowConfigType", "DesignGeomType", "DoubleUTubeConnType", "FluidType"):
        g.enum("enums.py", cls)
    # ---- calendar helpers (ground_loads.py) ----
    g.func("ground_loads.py", "monthdays")
    g.func("ground_loads.py", "first_month_hour", ptypes={"years": "list Q"})
    g.func("ground_loads.py", "last_month_hour", ptypes={"years": "list Q"})
    # ---- candidate field generators (coordinates.py, domains.py): whole functions ----
    PL = "list (Q * Q)"
    g.func("coordinates.py", "transpose_coordinates", rettype=PL, ptypes={"coordinates": PL})
    g.func("coordinates.py", "rectangle", rettype=PL, ptypes={"origin": "Q * Q"})
    g.func("coordinates.py", "open_rectangle", rettype=PL)
    g.func("coordinates.py", "c_shape", rettype=PL)
    g.func("coordinates.py", "lop_u", rettype=PL)
    g.func("coordinates.py", "l_shape", rettype=PL)
    g.func("coordinates.py", "zoned_rectangle", rettype=PL, raises=True)
    DL = "list (list (Q * Q))"
    ign = ["field_descriptors", "f_d", "f_ds", "f_d_reordered"]
    g.func("domains.py", "square_and_near_square", rettype=DL, raises=True, ignore=ign)
    g.func("domains.py", "rectangular", rettype=DL, ignore=ign, ptypes={"disp": "bool"})
    g.func("domains.py", "bi_rectangular", rettype=DL, ignore=ign, ptypes={"disp": "bool", "transpose": "bool"})
    g.func("domains.py", "bi_rectangle_nested", rettype="list (list (list (Q * Q)))", ignore=ign, ptypes={"disp": "bool"})
    g.func("domains.py", "zoned_rectangle_domain", rettype=DL, ignore=ign, raises=True, fuel="n_x + n_y", ptypes={"transpose": "bool"})
    g.func("domains.py", "bi_rectangle_zoned_nested", rettype="list (list (list (Q * Q)))", ignore=ign, raises=True)
    g.assign_expr("design.py", "DesignNearSquare.__init__", "n", "near_square_n", [],
                  attrs=["self.geometric_constraints.length", "self.geometric_constraints.b"])
    # ---- equivalent single U-tube (borehole_heat_exchangers.py) ----
    B = "borehole_heat_exchangers.py"
    ab = {"log": "ln_", "sqrt": "sqrt_"}
    g.raw("Section EquivPipe.\nVariables (pi TWO_PI : Q) (ln_ sqrt_ : Q -> Q).")
    g.consts["pi"] = "pi"; g.const_types["pi"] = "Q"; g.consts["TWO_PI"] = "TWO_PI"; g.const_types["TWO_PI"] = "Q"
    g.func(B, "MultipleUTube.u_tube_volumes", coqname="u_tube_volumes", rettype="tuple", abstract=ab, no_abstract_params=True,
           extra_strict=["self.nPipes", "self.r_in", "self.h_f", "self.r_out", "self.pipe.k"])
    g.func(B, "CoaxialPipe.concentric_tube_volumes", coqname="concentric_tube_volumes", rettype="tuple", abstract=ab, no_abstract_params=True,
           ptypes={"self_r_inner": "Q * Q", "self_r_outer": "Q * Q", "self_pipe_k": "list Q"},
           extra_strict=["self.r_inner", "self.r_outer", "self.h_f_a_out", "self.pipe.k"])
    EQ = "GHEDesignerBoreholeWithMultiplePipes.equivalent_single_u_tube"
    g.assign_expr(B, EQ, "n", "eq_n", [])
    g.assign_expr(B, EQ, "r_p_i_prime", "eq_r_in", ["vol_fluid", "n"], abstract=ab)
    g.assign_expr(B, EQ, "r_p_o_prime", "eq_r_out", ["vol_fluid", "vol_pipe", "n"], abstract=ab)
    g.assign_expr(B, EQ, "k_p_prime", "eq_k_pipe", ["r_p_o_prime", "r_p_i_prime", "n", "resist_pipe"], abstract=ab)
    g.assign_expr(B, "GHEDesignerBoreholeWithMultiplePipes.match_effective_borehole_resistance", "kg_lower", "kg_lower", [])
    g.assign_expr(B, "GHEDesignerBoreholeWithMultiplePipes.match_effective_borehole_resistance", "kg_upper", "kg_upper", [])
    g.raw("End EquivPipe.")
    del g.consts["pi"], g.consts["TWO_PI"]
    # ---- combined g-function (ground_heat_exchangers.py, gfunction.py) ----
    lq2 = "list Q"
    g.func("ground_heat_exchangers.py", "BaseGHE.combine_sts_lts", coqname="combine_sts_lts", rettype="tuple", raises=True,
           fuel="len(log_time_sts) + 1",
           ptypes={"log_time_lts": lq2, "g_lts": lq2, "log_time_sts": lq2, "g_sts": lq2})
    g.func("gfunction.py", "GFunction.borehole_radius_correction", coqname="borehole_radius_correction", rettype=lq2,
           ptypes={"g_function": lq2, "ln_": "Q -> Q"}, abstract={"log": "ln_"})
    g.assign_expr("gfunction.py", "GFunction.g_function_interpolation", "h_eq", "h_eq_of", ["b_over_h"], attrs=["self.B"], index=0)
    g.assign_expr("gfunction.py", "GFunction.g_function_interpolation", "close_tolerance", "gf_close_tolerance", [])
    g.assign_expr("gfunction.py", "GFunction.g_function_interpolation", "tolerance", "gf_tolerance", [])
    g.gf_plan()
    # ---- input files: keys written by to_input()/write_input_file, keys read by the CLI loader, schema key lists ----
    g.dict_keys("media.py", "GHEFluid.to_input", "keys_fluid")
    # the fluid named by the user -> the FluidType member stored -> the name written back; the mixture code handed to the property tables
    g.name_chain("media.py", "GHEFluid.__init__", "fluid_str", "self.fluid_type", "FluidType", "fluid_name_chain")
    g.name_dict("media.py", "GHEFluid.__init__", "fluid_map", "FluidType", "fluid_mixture_codes")
    g.dict_values("media.py", "GHEFluid.to_input", "fluid_written_values")
    g.call_args("media.py", "GHEFluid.__init__", "__init__", "fluid_super_init_args")
    g.call_args("manager.py", "GHEManager.set_fluid", "GHEFluid", "wiring_set_fluid")
    g.dict_keys("media.py", "ThermalProperty.to_input", "keys_grout")
    g.dict_keys("media.py", "Soil.to_input", "keys_soil")
    g.dict_keys("borehole.py", "GHEBorehole.to_input", "keys_borehole")
    g.dict_keys("simulation.py", "SimulationParameters.to_input", "keys_simulation")
    g.dict_keys("design.py", "DesignBase.to_input", "keys_design_base")
    for cls, nm in (("GeometricConstraintsNearSquare", "near_square"), ("GeometricConstraintsRectangle", "rectangle"),
                    ("GeometricConstraintsBiRectangle", "bi_rectangle"), ("GeometricConstraintsBiRectangleConstrained", "bi_rectangle_constrained"),
                    ("GeometricConstraintsBiZoned", "bi_zoned")):
        g.dict_keys("geometry.py", cls + ".to_input", "keys_geom_" + nm)
    g.subscript_keys("geometry.py", "GeometricConstraintsRowWise.to_input", "d", "keys_geom_rowwise", toplevel=True)
    g.subscript_keys("geometry.py", "GeometricConstraintsRowWise.to_input", "d", "keys_geom_rowwise_if_perimeter",
                     guard="perimeter_spacing_ratio is not None")
    W = ("manager.py", "GHEManager.write_input_file")
    g.subscript_keys(*W, "d_geo", "keys_geo_added")
    g.subscript_keys(*W, "d_des", "keys_des_always", toplevel=True)
    g.subscript_keys(*W, "d_des", "keys_des_if_max_boreholes", guard="max_boreholes is not None")
    g.subscript_keys(*W, "d_des", "keys_des_if_continue", guard="continue_if_design_unmet is True")
    g.subscript_keys(*W, "d_pipe", "keys_pipe_always", toplevel=True)
    g.subscript_keys(*W, "d_pipe", "keys_pipe_utube", guard="in [BHPipeType.SINGLEUTUBE")
    g.subscript_keys(*W, "d_pipe", "keys_pipe_coaxial", guard="== BHPipeType.COAXIAL")
    g.subscript_keys(*W, "d_pipe", "keys_pipe_arrangement", guard="== BHPipeType.SINGLEUTUBE")
    Lw = ("manager.py", "_run_manager_from_cli_worker")
    g.arg_names("manager.py", "GHEManager.set_fluid", "loader_fluid_kwargs")
    g.arg_names("manager.py", "GHEManager.set_grout", "loader_grout_kwargs")
    g.arg_names("manager.py", "GHEManager.set_soil", "loader_soil_kwargs")
    g.subscript_keys(*Lw, "pipe_props", "loader_pipe_always", mode="load", toplevel=True)
    g.subscript_keys(*Lw, "pipe_props", "loader_pipe_single", mode="load", guard="== BHPipeType.SINGLEUTUBE")
    g.subscript_keys(*Lw, "pipe_props", "loader_pipe_coaxial", mode="load", guard="== BHPipeType.COAXIAL")
    g.subscript_keys(*Lw, "borehole_props", "loader_borehole", mode="load")
    g.subscript_keys(*Lw, "sim_props", "loader_sim", mode="load")
    g.subscript_keys(*Lw, "design_props", "loader_design", mode="load")
    g.subscript_keys(*Lw, "design_props", "loader_design_optional", mode="get")
    g.subscript_keys(*Lw, "constraint_props", "loader_geom_always", mode="load", toplevel=True)
    for meth, nm in (("RECTANGLE", "rectangle"), ("NEARSQUARE", "near_square"), ("BIRECTANGLE", "bi_rectangle"), ("BIZONEDRECTANGLE", "bi_zoned"),
                     ("BIRECTANGLECONSTRAINED", "bi_rectangle_constrained"), ("ROWWISE", "rowwise")):
        g.subscript_keys(*Lw, "constraint_props", "loader_geom_" + nm, mode="load", guard="== DesignGeomType." + meth)
    g.subscript_keys(*Lw, "constraint_props", "loader_geom_rowwise_optional", mode="get", guard="== DesignGeomType.ROWWISE")
    for sf, nm in (("fluid.schema.json", "schema_fluid"), ("grout.schema.json", "schema_grout"), ("soil.schema.json", "schema_soil"),
                   ("borehole.schema.json", "schema_borehole"), ("simulation.schema.json", "schema_simulation"), ("design.schema.json", "schema_design"),
                   ("pipe_single_double_u_tube.schema.json", "schema_pipe_utube"), ("pipe_coaxial.schema.json", "schema_pipe_coaxial"),
                   ("geometric_near_square.schema.json", "schema_geom_near_square"), ("geometric_rectangle.schema.json", "schema_geom_rectangle"),
                   ("geometric_bi_rectangle.schema.json", "schema_geom_bi_rectangle"),
                   ("geometric_bi_rectangle_constrained.schema.json", "schema_geom_bi_rectangle_constrained"),
                   ("geometric_bi_zoned_rectangle.schema.json", "schema_geom_bi_zoned"), ("geometric_rowwise.schema.json", "schema_geom_rowwise"),
                   ("file_structure.schema.json", "schema_file")):
        g.schema(sf, nm)
    # ---- point in polygon (shape.py) ----
    g.func("shape.py", "point_polygon_check.between", coqname="between", rettype="bool")
    g.assign_expr("shape.py", "point_polygon_check", "c", "ppc_cross", ["v1x", "px", "v2y", "py", "v2x", "v1y"])
    g.default_arg("shape.py", "point_polygon_check", "on_edge_tolerance", "ppc_on_edge_tolerance")
    g.if_test("shape.py", "point_polygon_check", "continue", "ppc_vertex_rule", ["py", "v1y", "v2y"])
    g.if_test("shape.py", "point_polygon_check", "inside = not inside", "ppc_flip_rule", ["v1y", "v2y", "c"])
    g.if_test("shape.py", "point_polygon_check", "return 0", "ppc_on_line_rule", ["c"], mentions="c")
    g.default_arg("feature_recognition.py", "remove_cutout", "on_edge_tolerance", "cutout_on_edge_tolerance")
    # ---- the hybrid load sequence (ground_loads.py), the whole method ----
    lq = "list Q"
    g.func("ground_loads.py", "HybridLoad.process_month_loads", coqname="process_month_loads", rettype="tuple",
           returns=["self.load", "self.hour"],
           ptypes={k: lq for k in ["self_load", "self_hour", "self_years", "self_monthly_cl", "self_monthly_hl", "self_monthly_peak_cl",
                                    "self_monthly_peak_hl", "self_monthly_peak_cl_duration", "self_monthly_peak_hl_duration",
                                    "self_monthly_peak_cl_day", "self_monthly_peak_hl_day", "self_step_func_load"]},
           extra_strict=["self.load", "self.hour", "self.start_month", "self.years", "self.end_month", "self.monthly_cl", "self.monthly_hl",
                         "self.monthly_peak_cl", "self.monthly_peak_hl", "self.monthly_peak_cl_duration", "self.monthly_peak_hl_duration",
                         "self.monthly_peak_cl_day", "self.monthly_peak_hl_day", "self.peak_retain_start", "self.peak_retain_end",
                         "self.step_func_load"])
    # ---- from the hourly profile to the monthly arrays (ground_loads.py), both whole ----
    g.func("ground_loads.py", "HybridLoad.split_heat_and_cool", coqname="split_heat_and_cool", rettype="tuple", ptypes={"raw_loads": lq})
    arrs = ["monthly_cl", "monthly_hl", "monthly_peak_cl", "monthly_peak_hl", "monthly_avg_cl", "monthly_avg_hl", "monthly_peak_cl_day", "monthly_peak_hl_day"]
    g.func("ground_loads.py", "HybridLoad.split_loads_by_month", coqname="split_loads_by_month", rettype="tuple",
           returns=["self." + a for a in arrs],
           ptypes={"self_" + k: lq for k in ["days_in_month", "hourly_rejection_loads", "hourly_extraction_loads"] + arrs},
           extra_strict=["self." + k for k in ["days_in_month", "hourly_rejection_loads", "hourly_extraction_loads"] + arrs])
    # ---- the two-day window of each month's peak day (ground_loads.py), the whole method ----
    g.func("ground_loads.py", "HybridLoad.process_two_day_loads", coqname="process_two_day_loads", rettype="tuple",
           returns=["self.two_day_hourly_peak_cl_loads", "self.two_day_hourly_peak_hl_loads"],
           ptypes={"self_hourly_rejection_loads": lq, "self_hourly_extraction_loads": lq, "self_days_in_month": lq, "self_monthly_peak_cl_day": lq,
                   "self_monthly_peak_hl_day": lq, "self_two_day_hourly_peak_cl_loads": "list (list Q)", "self_two_day_hourly_peak_hl_loads": "list (list Q)"},
           extra_strict=["self.hourly_rejection_loads", "self.hourly_extraction_loads", "self.days_in_month", "self.monthly_peak_cl_day", "self.monthly_peak_hl_day",
                         "self.two_day_hourly_peak_cl_loads", "self.two_day_hourly_peak_hl_loads"])
    # ---- output time conversion (output.py) ----
    g.func("output.py", "OutputManager.hours_to_month", coqname="hours_to_month")
    g.func("output.py", "OutputManager.ghe_time_convert", coqname="ghe_time_convert", rettype="tuple")
    g.table_rows("output.py", "OutputManager.get_hourly_loading_data", "hourly_table_rows", "hourly_loadings = design.ghe.hourly_extraction_ground_loads",
                 "hourly_loadings", "list Q", "hourly_table_header")
    g.loop_rows("output.py", "OutputManager.get_g_function_data", "g_table_rows", ["gf_log_vals", "gf_g_vals", "gf_bhw_g_vals"],
                ["gf_adjusted, gf_bhw_adjusted = design.ghe.grab_g_function(design.ghe.B_spacing / float(design.ghe.bhe.b.H))",
                 "gf_log_vals = gf_adjusted.x", "gf_g_vals = gf_adjusted.y", "gf_bhw_g_vals = gf_bhw_adjusted.y"])
    g.table_rows("output.py", "OutputManager.get_borehole_location_data", "bore_table_rows", None, "bore_locations", "list (Q * Q)", "bore_table_header")
    # ---- search and sizing leaves ----
    g.func("utilities.py", "sign")
    g.func("utilities.py", "check_bracket", rettype="bool")
    g.func("utilities.py", "length_of_side")
    g.assign_expr("search_routines.py", "Bisection1D.search", "c_idx", "midpoint", ["x_l_idx", "x_r_idx"])
    g.default_arg("search_routines.py", "Bisection1D.__init__", "max_iter", "max_iter_1d")
    g.default_arg("search_routines.py", "RowWiseModifiedBisectionSearch.__init__", "max_iter", "max_iter_rowwise")
    g.func("ground_heat_exchangers.py", "BaseGHE.cost", coqname="cost",
           extra_strict=["self.sim_params.max_EFT_allowable", "self.sim_params.min_EFT_allowable"])
    # ---- the load sequence of an hourly simulation (GHE.simulate, HOURLY branch) ----
    SIM = "GHE.simulate"
    g.assign_expr("ground_heat_exchangers.py", SIM, "n_hours", "hourly_n_hours", ["n_months"], index=0)
    g.assign_expr("ground_heat_exchangers.py", SIM, "n_years", "hourly_n_years", ["n_hours"])
    g.assign_expr("ground_heat_exchangers.py", SIM, "q_dot", "hourly_tile", ["q_dot", "n_years", "n_hours"], ptypes={"q_dot": "list Q"}, index=3)
    # ---- the wiring between the layers: what each design class hands to its search, and what the manager hands to each design class ----
    for cls, search, nm in (("DesignNearSquare", "Bisection1D", "nearsquare"), ("DesignRectangle", "Bisection1D", "rectangle"), ("DesignBiRectangle", "Bisection2D", "birectangle"),
                            ("DesignBiZoned", "BisectionZD", "bizoned"), ("DesignBiRectangleConstrained", "BisectionZD", "constrained"),
                            ("DesignRowWise", "RowWiseModifiedBisectionSearch", "rowwise")):
        g.call_args("design.py", cls + ".find_design", search, f"wiring_{nm}_search")
        g.call_args("manager.py", "GHEManager.set_design", cls, f"wiring_{nm}_design")
    # ---- GHE.size: the height left on the object is the value the root solver returned ----
    g.assign_expr("ground_heat_exchangers.py", "GHE.size", "self.bhe.b.H", "size_stored_height", ["returned_height"], index=1)
    g.assign_expr("utilities.py", "solve_root", "kg_minus_sign", "root_sign", ["minus"])
    g.assign_expr("utilities.py", "solve_root", "kg_plus_sign", "root_sign_plus", ["plus"])
    g.func("search_routines.py", "Bisection1D.retrieve_flow", coqname="retrieve_flow", rettype="tuple", raises=True,
           ptypes={"self_flow_type": "FlowConfigType", "coordinates": "list (Q * Q)"},
           extra_strict=["self.flow_type", "self.V_flow"])
    g.same_ast("search_routines.py", "Bisection1D.retrieve_flow", "RowWiseModifiedBisectionSearch.retrieve_flow")
    g.assign_expr("ground_heat_exchangers.py", "BaseGHE.__init__", "self.V_flow_borehole", "ghe_v_flow_borehole", [],
                  attrs=["self.V_flow_system", "self.nbh"])
    g.assign_expr("ground_heat_exchangers.py", "BaseGHE.__init__", "m_flow_borehole", "ghe_m_flow_borehole", [],
                  attrs=["self.V_flow_borehole", "fluid.rho"])


def main():
    g = Gen()
    status = {"ok": True, "error": None}
    try:
        build_spec(g)
    except (Unsupported, SyntaxError, OSError) as ex:
        status = {"ok": False, "error": f"{type(ex).__name__}: {ex}"}
    header = ("(* GENERATED by tools/srcgen.py from /repo/ghedesigner — do not edit. *)\n"
              "From Coq Require Import ZArith QArith String List Bool.\nFrom GHE Require Import Base.QUtil.\n"
              "Import ListNotations.\nOpen Scope Q_scope.\n\n")
    text = header + "\n\n".join(g.out) + "\n"
    if g.notes:
        text += "\n(* translator notes:\n" + "\n".join("   " + n for n in g.notes) + "\n*)\n"
    os.makedirs(os.path.dirname(OUT), exist_ok=True)
    old = None
    if os.path.exists(OUT):
        with open(OUT) as f:
            old = f.read()
    if status["ok"]:
        if old != text:
            with open(OUT, "w") as f:
                f.write(text)
    status["changed"] = status["ok"] and old != text
    status["sources"] = g.sources
    status["definitions"] = len(g.out)
    status["notes"] = g.notes
    status["sha"] = hashlib.sha256(text.encode()).hexdigest()[:16]
    print(json.dumps(status))
    return 0 if status["ok"] else 2


if __name__ == "__main__":
    sys.exit(main())
