#!/usr/bin/env python3
"""seeded_confirm.py — confirm candidate property-breaking changes and store the confirmed ones under /verif/seeded/<id>/.

A candidate is a triple <dir>/m<i>.diff, m<i>_demo.py, m<i>.json (written by a sub-agent that saw only the property text).
Confirmed means, checked here in a fresh scratch worktree of /repo HEAD (removed afterwards):
  1. the demo exits 0 on the unchanged tree;           2. the patch applies;
  3. the demo exits 1 with the patch applied;           4. the project's whole test suite still passes with it.
usage: tools/seeded_confirm.py [-j N] [--no-tests] <candidate dir> [<candidate dir> ...]
"""
import argparse, glob, json, os, re, shutil, subprocess, sys, time
from concurrent.futures import ThreadPoolExecutor
VERIF = os.path.dirname(os.path.dirname(os.path.abspath(__file__)))
SEEDED = os.path.join(VERIF, "seeded")
PY = "/venv/bin/python"


def sh(cmd, cwd=None, env=None, timeout=5400):
    e = dict(os.environ)
    e.update({"OMP_NUM_THREADS": "2", "OPENBLAS_NUM_THREADS": "2", "PYTHONHASHSEED": "0"})
    if env:
        e.update(env)
    try:
        p = subprocess.run(cmd, shell=True, cwd=cwd, env=e, capture_output=True, text=True, timeout=timeout)
        return p.returncode, (p.stdout + p.stderr)
    except subprocess.TimeoutExpired:
        return 124, "TIMEOUT"


def confirm(diff, run_tests):
    d = os.path.dirname(diff)
    stem = os.path.basename(diff)[:-5]
    demo = os.path.join(d, stem + "_demo.py")
    meta = json.load(open(os.path.join(d, stem + ".json"))) if os.path.exists(os.path.join(d, stem + ".json")) else {}
    pid = meta.get("property") or re.search(r"C\d\d", d).group(0)
    sid = f"{pid}-{stem}"
    wt = f"/tmp/sc_{sid}"
    sh(f"git -C /repo worktree remove --force {wt}; rm -rf {wt}")
    out = {"id": sid, "property": pid}
    rc, o = sh(f"git -C /repo worktree add -q --detach {wt} HEAD")
    try:
        if rc != 0:
            out["reject"] = "worktree: " + o[-200:]
            return out
        if not os.path.exists(demo):
            out["reject"] = "no demo"
            return out
        rc0, o0 = sh(f"{PY} {demo}", cwd=wt, env={"PYTHONPATH": wt}, timeout=900)
        out["demo_clean_exit"] = rc0
        if rc0 != 0:
            out["reject"] = "demo does not exit 0 on the unchanged tree: " + o0[-300:]
            return out
        rc, o = sh(f"git apply {diff}", cwd=wt)
        if rc != 0:
            out["reject"] = "patch does not apply to HEAD: " + o[-300:]
            return out
        rc, files = sh("git diff --name-only", cwd=wt)
        out["files"] = files.split()
        if any(f.startswith("ghedesigner/tests") or not f.startswith("ghedesigner/") for f in out["files"]):
            out["reject"] = "touches files outside ghedesigner/ or tests"
            return out
        rc1, o1 = sh(f"{PY} {demo}", cwd=wt, env={"PYTHONPATH": wt}, timeout=900)
        out["demo_changed_exit"] = rc1
        out["demo_output"] = o1[-1500:]
        if rc1 != 1:
            out["reject"] = f"demo exits {rc1} (not 1) with the change: " + o1[-300:]
            return out
        if run_tests:
            t0 = time.time()
            rc, o = sh(f"{PY} -m pytest -q -p no:cacheprovider --no-cov --timeout=900 --continue-on-collection-errors -x", cwd=wt, env={"PYTHONPATH": wt}, timeout=5400)
            tail = [l for l in o.splitlines() if re.search(r"\d+ (passed|failed|error)", l)]
            out["tests"] = {"exit": rc, "line": tail[-1] if tail else o[-200:], "wall_s": round(time.time() - t0)}
            if rc != 0:
                out["reject"] = "test suite fails with the change: " + (tail[-1] if tail else o[-300:])
                return out
        dst = os.path.join(SEEDED, sid)
        os.makedirs(dst, exist_ok=True)
        shutil.copy(diff, os.path.join(dst, "patch.diff"))
        shutil.copy(demo, os.path.join(dst, "demo.py"))
        with open(os.path.join(dst, "demo_output.txt"), "w") as f:
            f.write(o1)
        meta.update({"id": sid, "property": pid, "confirmed": {k: out[k] for k in ("demo_clean_exit", "demo_changed_exit", "files") if k in out},
                     "tests_confirmed": out.get("tests"), "source": "sub-agent given only the property text and a scratch worktree"})
        json.dump(meta, open(os.path.join(dst, "meta.json"), "w"), indent=1)
        out["stored"] = dst
        return out
    finally:
        sh(f"git -C /repo worktree remove --force {wt}; rm -rf {wt}; git -C /repo worktree prune")


def main():
    ap = argparse.ArgumentParser()
    ap.add_argument("-j", type=int, default=6)
    ap.add_argument("--no-tests", action="store_true")
    ap.add_argument("dirs", nargs="+")
    a = ap.parse_args()
    diffs = sorted(f for d in a.dirs for f in glob.glob(os.path.join(d, "m*.diff")))
    with ThreadPoolExecutor(max_workers=a.j) as ex:
        res = list(ex.map(lambda f: confirm(f, not a.no_tests), diffs))
    for r in res:
        print(json.dumps({k: v for k, v in r.items() if k != "demo_output"}))


if __name__ == "__main__":
    main()
