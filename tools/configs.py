"""configs.py — base configurations (the tool's own input format) used by end-to-end runs"""
import copy

BASE = {
    "version": "1.5",
    "fluid": {"fluid_name": "WATER", "concentration_percent": 0.0, "temperature": 20},
    "grout": {"conductivity": 1.0, "rho_cp": 3901000},
    "soil": {"conductivity": 2.0, "rho_cp": 2343493, "undisturbed_temp": 18.3},
    "pipe": {"inner_diameter": 0.03404, "outer_diameter": 0.04216, "shank_spacing": 0.01856, "roughness": 1e-06,
             "conductivity": 0.4, "rho_cp": 1542000, "arrangement": "SINGLEUTUBE"},
    "borehole": {"buried_depth": 2.0, "diameter": 0.14},
    "simulation": {"num_months": 24},
    "geometric_constraints": {"length": 40, "b": 5.0, "max_height": 135.0, "min_height": 60.0, "method": "NEARSQUARE"},
    "design": {"flow_rate": 0.5, "flow_type": "BOREHOLE", "max_eft": 35.0, "min_eft": 5.0},
    "loads": {"synthetic": {"kind": "balanced", "scale": 30000.0, "seed": 1}},
}

PIPES = {
    "SINGLEUTUBE": BASE["pipe"],
    "DOUBLEUTUBEPARALLEL": {"inner_diameter": 0.03404, "outer_diameter": 0.04216, "shank_spacing": 0.01856,
                            "roughness": 1e-06, "conductivity": 0.4, "rho_cp": 1542000, "arrangement": "DOUBLEUTUBEPARALLEL"},
    "DOUBLEUTUBESERIES": {"inner_diameter": 0.03404, "outer_diameter": 0.04216, "shank_spacing": 0.01856,
                          "roughness": 1e-06, "conductivity": 0.4, "rho_cp": 1542000, "arrangement": "DOUBLEUTUBESERIES"},
    "COAXIAL": {"inner_pipe_d_in": 0.0442, "inner_pipe_d_out": 0.050, "outer_pipe_d_in": 0.0974, "outer_pipe_d_out": 0.11,
                "roughness": 1e-06, "conductivity_inner": 0.4, "conductivity_outer": 0.4, "rho_cp": 1542000,
                "arrangement": "COAXIAL"},
}

GEOMS = {
    "NEARSQUARE": {"length": 40, "b": 5.0, "max_height": 135.0, "min_height": 60.0, "method": "NEARSQUARE"},
    "RECTANGLE": {"length": 40, "width": 25, "b_min": 3.0, "b_max": 10.0, "max_height": 135.0, "min_height": 60.0,
                  "method": "RECTANGLE"},
    "BIRECTANGLE": {"length": 40, "width": 25, "b_min": 3.0, "b_max_x": 10.0, "b_max_y": 12.0, "max_height": 135.0,
                    "min_height": 60.0, "method": "BIRECTANGLE"},
    "BIZONEDRECTANGLE": {"length": 40, "width": 25, "b_min": 3.0, "b_max_x": 10.0, "b_max_y": 12.0, "max_height": 135.0,
                         "min_height": 60.0, "method": "BIZONEDRECTANGLE"},
    "BIRECTANGLECONSTRAINED": {"b_min": 4.0, "b_max_x": 10.0, "b_max_y": 12.0, "max_height": 135.0, "min_height": 60.0,
                               "property_boundary": [[0, 0], [45, 0], [45, 30], [20, 38], [0, 30]],
                               "no_go_boundaries": [[[10, 10], [18, 10], [18, 18], [10, 18]]],
                               "method": "BIRECTANGLECONSTRAINED"},
    "ROWWISE": {"perimeter_spacing_ratio": 0.8, "max_spacing": 10.0, "min_spacing": 4.0, "spacing_step": 0.5,
                "max_rotation": 10.0, "min_rotation": -10.0, "rotate_step": 5.0, "max_height": 135.0, "min_height": 60.0,
                "property_boundary": [[5, 5], [45, 5], [45, 35], [5, 35]],
                "no_go_boundaries": [[[20, 15], [26, 15], [26, 21], [20, 21]]], "method": "ROWWISE"},
}


def cfg(geom="NEARSQUARE", pipe="SINGLEUTUBE", months=24, loads=None, flow=("BOREHOLE", 0.5), design=None, geom_over=None,
        **over):
    c = copy.deepcopy(BASE)
    c["geometric_constraints"] = copy.deepcopy(GEOMS[geom])
    if geom_over:
        c["geometric_constraints"].update(geom_over)
    c["pipe"] = copy.deepcopy(PIPES[pipe])
    if pipe == "COAXIAL":
        c["borehole"]["diameter"] = 0.14
    c["simulation"]["num_months"] = months
    if loads:
        c["loads"] = {"synthetic": loads}
    c["design"]["flow_type"], c["design"]["flow_rate"] = flow
    if design:
        c["design"].update(design)
    for k, v in over.items():
        c[k] = v
    return c


def steep_cfg(scale=2100.0, seed=3, flow=("BOREHOLE", 0.3)):
    """a design whose excess is steep in the height (about 0.7 K per metre): one short borehole, cold ground, a small cooling load —
    an error of a few millimetres in the returned height shows as more than the 1e-3 K sizing tolerance"""
    c = cfg("NEARSQUARE", months=12, loads={"kind": "cooling", "scale": scale, "seed": seed}, flow=flow,
            geom_over={"length": 4, "b": 5.0, "min_height": 15.0, "max_height": 60.0})
    c["soil"] = dict(c["soil"], undisturbed_temp=10.0)
    return c


def rowwise_small_cfg(scale, cont=False):
    """RowWise on a small lot where even the sparsest generated field meets the limits: the search goes into its borehole-removal
    bisection (rotation -5 deg only: no two boreholes at the same distance from the corner)"""
    c = cfg("ROWWISE", months=12, loads={"kind": "constant", "scale": scale, "seed": 1, "sign": -1.0},
            design={"continue_if_design_unmet": cont},
            geom_over={"property_boundary": [[0, 0], [20.5, 0], [20.5, 10.5], [0, 10.5]], "no_go_boundaries": [], "perimeter_spacing_ratio": None,
                       "max_spacing": 10.0, "min_spacing": 5.0, "spacing_step": 1.0, "max_rotation": 0.0, "min_rotation": -5.0, "rotate_step": 5.0})
    return c
