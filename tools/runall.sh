#!/bin/bash
# run every check at one tier with one seed, sequentially; summary lines to stdout
# usage: tools/runall.sh [quick|thorough] [seed]
cd "$(dirname "$0")/.."
tier=${1:-quick}; export VERIF_SEED=${2:-20261001}
for i in $(seq -w 1 20); do
  s=$(date +%s)
  out=$(./vcheck C$i $tier 2>&1); rc=$?
  echo "C$i rc=$rc $(( $(date +%s) - s ))s | $(echo "$out" | grep -c '^VIOLATION') violations | $(echo "$out" | grep -c '^KNOWN-FINDING') known | $(echo "$out" | grep '^\[C' | tail -1)"
  echo "$out" | grep '^VIOLATION'
done
